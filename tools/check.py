#!/usr/bin/env python3
"""./check <property> [--tier quick|thorough] [--seed N] [--replay file]

Decides one property of /verif/properties.jsonl for /repo's current working tree:
  P  the property's theorems (and the translator-tie theorems they rest on) compile against the
     data regenerated from the tree, with no forbidden construct and only the three standard axioms;
  K  the hand-written model agrees with the library (ASan+UBSan build of the tree) on this run's
     inputs, on the observables the property names;
  S  the executable specification agrees with the library on the same inputs (this is the search for
     a concrete failing input; it runs on every invocation, so a failing input is found as early as possible).
exit 0: all three hold.  exit 1: `VIOLATION property=<id> replay=<file>` per violation not listed in
known_findings.json (a concrete input when S found one, otherwise the theorem / correspondence that no
longer checks and the words no-failing-input-found)."""
import argparse, json, os, sys, time, hashlib, random, traceback
sys.path.insert(0, os.path.dirname(os.path.abspath(__file__)))
import vlib, gen, props
from vlib import VERIF


def main():
    ap = argparse.ArgumentParser()
    ap.add_argument("prop")
    ap.add_argument("--tier", default=os.environ.get("VERIF_TIER", "quick"), choices=["quick", "thorough"])
    ap.add_argument("--seed", type=int, default=int(os.environ.get("VERIF_SEED", "1")))
    ap.add_argument("--replay")
    a = ap.parse_args()
    if a.prop not in props.PROPS:
        print("unknown property", a.prop)
        return 2
    t0 = time.time()
    with vlib.Scratch() as scr:
        ctx = props.Ctx(a.prop, a.tier, a.seed, scr)
        try:
            if a.replay:
                props.replay(ctx, a.replay)
            else:
                ctx.prepare()
                props.PROPS[a.prop](ctx)
        except vlib.BuildError as e:
            ctx.broken("build", "the tree does not build under the harness: " + str(e)[:1500])
        except Exception as e:           # machinery failure: never silently a pass
            traceback.print_exc()
            ctx.broken("machinery", "check machinery failed: %r" % (e,))
        rc = ctx.finish(time.time() - t0)
    return rc


if __name__ == "__main__":
    sys.exit(main())
