#!/usr/bin/env python3
"""Translator: regenerates lean/Eav/Gen/*.lean from the CURRENT working tree of the repository.

  extract.py <repo-copy> <out-dir>

Sources read (all from <repo-copy>, a scratch copy of /repo's working tree):
  include/eav.h, include/eav/auto_tld.h, include/eav/private.h   enums (names by regex, VALUES by compiling and
                                                                  running harness/dump.c against the library sources)
  src/auto_tld.c                tld_list[] (through the compiled library: the array the code really uses)
  src/eav.c                     errors[] strings (through eav_errstr) and their /* EEAV_x */ tags (regex)
  src/is_special_domain.c       reserved[], example[], the literal "example"/8, LABEL_SIZE, the length filter
  src/is_*_local.c              the `case` label sets of the scanners
  partial/*/eav.c               eav_init / eav_setup behaviour (through the compiled library, idn2 backend)
  data/punycode.csv, data/raw.csv, data/tld-domains.txt
  Makefile                      option defaults and the ON -> -D mapping
  object files                  symbols with static storage (nm), undefined symbols
The extractor fails loudly when a construct it expects is missing: that is a broken tie.
"""
import csv, json, os, re, subprocess, sys, hashlib

HERE = os.path.dirname(os.path.abspath(__file__))
VERIF = os.path.dirname(HERE)


class TieError(Exception):
    pass


def strip_comments(s):
    return re.sub(r"/\*.*?\*/", " ", s, flags=re.S)


def enum_names(text):
    names = []
    for m in re.finditer(r"enum\s*\{(.*?)\}", strip_comments(text), flags=re.S):
        for item in m.group(1).split(","):
            item = item.strip()
            if not item:
                continue
            mm = re.match(r"([A-Za-z_]\w*)", item)
            if not mm:
                raise TieError("unparsable enum item: %r" % item)
            names.append(mm.group(1))
    return names


def lean_bytes(b):
    return "[" + ", ".join(str(x) for x in b) + "]"


def lean_str(s):
    out = []
    for ch in s:
        if ch == '"' or ch == "\\":
            out.append("\\" + ch)
        elif 32 <= ord(ch) < 127:
            out.append(ch)
        else:
            out.append("\\u{%x}" % ord(ch))
    return '"' + "".join(out) + '"'


def chunked(name, typ, rows, per=40, ns="Eav.Gen"):
    """emit `def name : List typ` as a concatenation of chunk definitions"""
    out = []
    n = 0
    for i in range(0, len(rows), per):
        out.append("def %s_%d : List (%s) := [\n  %s]\n" % (name, n, typ, ",\n  ".join(rows[i:i + per])))
        n += 1
    if n == 0:
        out.append("def %s : List (%s) := []\n" % (name, typ))
    else:
        out.append("def %s : List (%s) :=\n  %s\n" % (name, typ, " ++ ".join("%s_%d" % (name, k) for k in range(n))))
    return "\n".join(out)


def write_if_changed(path, text):
    old = None
    if os.path.exists(path):
        old = open(path, encoding="utf-8").read()
    if old != text:
        with open(path, "w", encoding="utf-8") as f:
            f.write(text)
        return True
    return False


def case_labels(body):
    """all `case 'x':` labels of a C fragment as byte values"""
    vals = []
    for m in re.finditer(r"case\s+'((?:\\.|[^'\\]))'\s*:", body):
        t = m.group(1)
        esc = {"\\n": 10, "\\r": 13, "\\t": 9, "\\\\": 92, "\\'": 39, '\\"': 34}
        vals.append(esc[t] if t in esc else ord(t))
    return vals


def main():
    repo, out = sys.argv[1], sys.argv[2]
    os.makedirs(out, exist_ok=True)
    rd = lambda p: open(os.path.join(repo, p), encoding="utf-8", errors="surrogateescape").read()

    # ---------------- enums + runtime dump
    names = enum_names(rd("include/eav.h")) + enum_names(rd("include/eav/auto_tld.h"))
    if not names:
        raise TieError("no enum found in headers")
    work = os.path.join(repo, "_verif_extract")
    os.makedirs(work, exist_ok=True)
    with open(os.path.join(work, "enum_names.h"), "w") as f:
        f.write("#define ENUM_ROWS " + ", ".join('{"%s", (long) %s}' % (n, n) for n in names) + "\n")
    srcs = sorted(os.path.join(repo, "src", x) for x in os.listdir(os.path.join(repo, "src")) if x.endswith(".c"))
    srcs += sorted(os.path.join(repo, "partial/idn2", x) for x in os.listdir(os.path.join(repo, "partial/idn2")) if x.endswith(".c"))
    def run_dump(defines=()):
        exe = os.path.join(work, "dump" + "".join("_" + d for d in defines))
        cmd = ["gcc", "-O0", "-w", "-std=gnu99", "-D_DEFAULT_SOURCE", "-D_XOPEN_SOURCE=700", "-DHAVE_LIBIDN2"] + ["-D" + d for d in defines] + \
              ["-I" + os.path.join(repo, "include"), "-I" + repo, "-I" + work,
               os.path.join(VERIF, "harness/dump.c")] + srcs + ["-lidn2", "-o", exe]
        p = subprocess.run(cmd, stdout=subprocess.PIPE, stderr=subprocess.STDOUT)
        if p.returncode != 0:
            raise TieError("dump.c does not compile against the tree:\n" + p.stdout.decode()[-2000:])
        p = subprocess.run([exe], stdout=subprocess.PIPE, stderr=subprocess.PIPE)
        if p.returncode != 0:
            raise TieError("dump failed: rc=%d %s" % (p.returncode, p.stderr.decode()[-500:]))
        return json.loads(p.stdout.decode())
    dump = run_dump()

    L = []
    L.append("/-! GENERATED by tools/extract.py from the repository working tree — do not edit. -/")
    L.append("namespace Eav.Gen\n")
    en = dump["enums"]
    def sub(prefix):
        return [(n, en[n]) for n in names if n.startswith(prefix)]
    L.append("def errEnum : List (String × Int) := [%s]\n" % ", ".join('("%s", %d)' % x for x in sub("EEAV_")))
    L.append("def tldTypeEnum : List (String × Int) := [%s]\n" % ", ".join('("%s", %d)' % x for x in sub("TLD_TYPE_")))
    L.append("def tldBitEnum : List (String × Int) := [%s]\n" % ", ".join('("%s", %d)' % x for x in sub("EAV_TLD_")))
    L.append("def rfcEnum : List (String × Int) := [%s]\n" % ", ".join('("%s", %d)' % x for x in sub("EAV_RFC_")))
    lim = dump["limits"]
    # LABEL_SIZE (is_special_domain.c) and TEXT_SIZE (bin/main.h) are local macros: regex
    spsrc = rd("src/is_special_domain.c")
    m = re.search(r"#\s*define\s+LABEL_SIZE\s+\(?\s*(\d+)\s*\)?", spsrc) or re.search(r"\bLABEL_SIZE\s*=\s*(\d+)", spsrc) or \
        re.search(r"\bchar\s+label\s*\[\s*(\d+)\s*\]", spsrc)
    if m:                                     # no such buffer in this tree (labels compared in place): nothing to tie
        lim["LABEL_SIZE"] = int(m.group(1))
    L.append("def limits : List (String × Nat) := [%s]\n" % ", ".join('("%s", %d)' % (k, lim[k]) for k in sorted(lim)))

    # errors[]: runtime strings + source tags
    src_eav = rd("src/eav.c")
    m = re.search(r"errors\s*\[\s*EEAV_MAX\s*\]\s*=\s*\{(.*?)\};", src_eav, flags=re.S)
    # every string of the initialiser, with its /* EEAV_x */ tag when it carries one ("" otherwise: the tag is documentation)
    tags = [(a, b) for a, b in re.findall(r'"((?:[^"\\]|\\.)*)"(?:\s*/\*\s*(EEAV_\w+)\s*\*/)?', m.group(1))] if m else []
    if len(tags) != len(dump["errors"]):
        # the initialiser is written in a form this reader does not know: the strings eav_errstr returns are what counts
        tags = [(x if x is not None else "", "") for x in dump["errors"]]
    L.append("/-- `errors[i]` as returned by `eav_errstr` with `errcode = i` (entry 2 is the idnmsg path) -/")
    L.append("def errorsRuntime : List String := [%s]\n" % ", ".join(lean_str(x if x is not None else "<NULL>") for x in dump["errors"]))
    L.append("/-- the `\"text\" /* EEAV_x */` pairs of the initialiser, in source order -/")
    L.append("def errorsSource : List (String × String) := [%s]\n" % ", ".join("(%s, %s)" % (lean_str(t), lean_str(n)) for t, n in tags))

    # eav_init / eav_setup
    fl = dump["init_fields"]
    L.append("def initFieldsSet : List (String × Bool) := [%s]\n" % ", ".join('("%s", %s)' % (k, "true" if fl[k]["set"] else "false") for k in fl))
    iv = dump["init_values"]
    L.append("def initValues : List (String × Int) := [%s]\n" % ", ".join('("%s", %d)' % (k, iv[k]) for k in iv))
    L.append("/-- (rfc value, return code, utf8 flag, ascii_cb, utf8_cb, errcode) after `eav_setup` on a fresh object -/")
    L.append("def setupTable : List (Int × Int × Int × String × String × Int) := [%s]\n" % ", ".join(
        '(%d, %d, %d, "%s", "%s", %d)' % (r["rfc"], r["rc"], r["utf8"], r["ascii_cb"], r["utf8_cb"], r["errcode"]) for r in dump["setup"]))

    # reserved[] / example[]
    sp = rd("src/is_special_domain.c")
    def arr(name):
        m = re.search(r"reserved_t\s+%s\s*\[\s*\]\s*=\s*\{(.*?)\};" % name, sp, flags=re.S)
        if not m:
            raise TieError("%s[] not found in src/is_special_domain.c" % name)
        rows = re.findall(r'\{\s*"([^"]*)"\s*,\s*(\d+)\s*\}', m.group(1))
        if not rows:
            raise TieError("%s[] has no rows" % name)
        return sorted(rows)
    for nm_ in ("reserved", "example"):
        try:
            rows_ = arr(nm_)
        except TieError:
            rows_ = []                      # spelled differently: the string literals of the object file (below) are compared instead
        L.append("def %sTable : List (List Nat × Nat) := [%s]\n" % (nm_, ", ".join("(%s, %s)" % (lean_bytes(r[0].encode()), r[1]) for r in rows_)))
    # every string literal of the compiled function, whatever the source spelling of its tables (read-only data of the object file)
    spo = os.path.join(work, "is_special_domain.o")
    p = subprocess.run(["gcc", "-O2", "-w", "-std=gnu99", "-D_DEFAULT_SOURCE", "-D_XOPEN_SOURCE=700", "-I" + os.path.join(repo, "include"), "-I" + repo,
                        "-c", os.path.join(repo, "src/is_special_domain.c"), "-o", spo], stdout=subprocess.PIPE, stderr=subprocess.STDOUT)
    if p.returncode != 0:
        raise TieError("cannot compile src/is_special_domain.c:\n" + p.stdout.decode()[-1500:])
    lits = set()
    secs = [ln.split()[1] for ln in subprocess.run(["objdump", "-h", spo], stdout=subprocess.PIPE).stdout.decode().splitlines()
            if re.match(r"^\s*\d+\s+\.rodata", ln)]
    for sec in secs:
        raw = subprocess.run(["objcopy", "-O", "binary", "--only-section=" + sec, spo, "/dev/stdout"], stdout=subprocess.PIPE).stdout
        for piece in raw.split(b"\0"):
            if piece and all(32 <= b < 127 for b in piece):
                lits.add(piece)
    L.append("/-- printable string literals in the read-only data of is_special_domain.o -/")
    L.append("def specialObjStrings : List (List Nat) := [%s]\n" % ", ".join(lean_bytes(x) for x in sorted(lits)))
    m = re.search(r'strncasecmp\s*\(\s*"(\w+)"\s*,\s*label\s*,\s*(\d+)\s*\)', sp)
    # absent in this spelling -> ([], 0): nothing to compare (behaviour is compared by the correspondence either way)
    L.append("def exampleLabel : List Nat × Nat := (%s, %s)\n" % ((lean_bytes(m.group(1).encode()), m.group(2)) if m else ("[]", "0")))
    filt = re.findall(r"if\s*\(\s*len\s*<\s*(\d+)\s*\|\|\s*len\s*>\s*(\d+)\s*\|\|\s*len\s*==\s*(\d+)\s*\|\|\s*len\s*==\s*(\d+)\s*\)", sp)
    # a pure optimisation: when it is not there (or spelled differently) there is nothing to compare
    L.append("def specialLenFilters : List (Nat × Nat × Nat × Nat) := [%s]\n" % ", ".join("(%s, %s, %s, %s)" % f for f in filt))

    # the bytes each scanner refuses as "special" outside quotes, per build option: probed on the compiled code (harness/dump.c)
    sets = []
    for pth in ("src/is_822_local.c", "src/is_5321_local.c", "src/is_5322_local.c", "src/is_6531_local.c"):
        sets.append((pth, "", sorted(dump["specials"][pth])))
    for d in ("RFC6531_FOLLOW_RFC20", "RFC6531_FOLLOW_RFC5322"):
        sets.append(("src/is_6531_local.c", d, sorted(run_dump((d,))["specials"]["src/is_6531_local.c"])))
    L.append("/-- (file, define, bytes of the `case` list that returns EEAV_LPART_SPECIAL) -/")
    L.append("def specialsCases : List (String × String × List Nat) := [%s]\n" % ", ".join('("%s", "%s", %s)' % (a, b, "[" + ", ".join(str(x) for x in c) + "]") for a, b, c in sets))

    # Makefile options, by what `make -n` would compile: no option given -> which of the three macros are defined; OPTION=ON -> which
    def make_defines(args):
        p = subprocess.run(["make", "-n", "-B", "-C", repo] + args, stdout=subprocess.PIPE, stderr=subprocess.DEVNULL)
        out = p.stdout.decode(errors="replace")
        if "-c" not in out:
            raise TieError("make -n prints no compile command")
        return set(re.findall(r"-D((?:RFC6531|LABELS)_\w+)", out))
    base_defs = make_defines([])
    opts = []
    for o in ("RFC6531_FOLLOW_RFC5322", "RFC6531_FOLLOW_RFC20", "LABELS_ALLOW_UNDERSCORE"):
        on = make_defines([o + "=ON"]) - base_defs
        # the option is the same option whichever IDN back end the library is built for
        for be in ("idn", "idn2", "idnkit"):
            on_be = make_defines(["FORCE_IDN=" + be, o + "=ON"]) - make_defines(["FORCE_IDN=" + be])
            if on_be != on:
                raise TieError("Makefile: %s=ON with FORCE_IDN=%s defines %r (without FORCE_IDN: %r)" % (o, be, sorted(on_be), sorted(on)))
        if len(on) != 1:
            raise TieError("Makefile: %s=ON defines %r" % (o, sorted(on)))
        opts.append((o, "ON" if o in base_defs else "OFF", "ON", sorted(on)[0]))
    L.append("/-- (option, default, value that enables it, macro it defines) -/")
    L.append("def buildOpts : List (String × String × String × String) := [%s]\n" % ", ".join('("%s", "%s", "%s", "%s")' % o for o in opts))

    # objects with static storage + undefined symbols (compiled fresh, all three backends' objects where they compile)
    objdir = os.path.join(work, "obj")
    os.makedirs(objdir, exist_ok=True)
    globs, undef = [], set()
    shim = os.path.join(VERIF, "shims")
    bes = []
    for b, d in (("idn2", ["-DHAVE_LIBIDN2"]), ("idn", ["-DHAVE_LIBIDN", "-I" + shim]), ("idnkit", ["-DHAVE_IDNKIT", "-I" + shim])):
        bes += [(b, b, d), (b + "x", b, d + ["-DEAV_EXTRA"])]          # every back end, without and with the EAV_EXTRA code
    for be, be_dir, defs in bes:
        files = sorted(os.path.join(repo, "src", x) for x in os.listdir(os.path.join(repo, "src")) if x.endswith(".c")) if be.startswith("idn2") else []
        files += sorted(os.path.join(repo, "partial", be_dir, x) for x in os.listdir(os.path.join(repo, "partial", be_dir)) if x.endswith(".c"))
        for f in files:
            o = os.path.join(objdir, be + "_" + os.path.relpath(f, repo).replace("/", "_") + ".o")
            p = subprocess.run(["gcc", "-O2", "-w", "-std=gnu99", "-D_DEFAULT_SOURCE", "-D_XOPEN_SOURCE=700"] + defs +
                               ["-I" + os.path.join(repo, "include"), "-I" + repo, "-c", f, "-o", o],
                               stdout=subprocess.PIPE, stderr=subprocess.STDOUT)
            if p.returncode != 0:
                if be.startswith("idn2"):
                    raise TieError("cannot compile %s:\n%s" % (f, p.stdout.decode()[-1500:]))
                continue       # shim headers missing: backend objects skipped (recorded below)
            rel = os.path.relpath(f, repo)
            for line in subprocess.run(["nm", "-u", o], stdout=subprocess.PIPE).stdout.decode().splitlines():
                parts = line.split()
                if len(parts) == 2 and parts[0] == "U":
                    undef.add(parts[1])
            # objects (symbol type O) and the section they live in; read-only = .rodata* / .data.rel.ro*
            for line in subprocess.run(["objdump", "-t", o], stdout=subprocess.PIPE).stdout.decode().splitlines():
                m = re.match(r"^[0-9a-f]+\s+(.{7})\s+(\S+)\s+[0-9a-f]+\s+(\S+)$", line)
                if not m or "O" not in m.group(1):
                    continue
                sec, sym = m.group(2), m.group(3)
                if sec.startswith(".rodata") or sec.startswith(".data.rel.ro"):
                    continue
                if (rel, sym, sec) not in globs:
                    globs.append((rel, sym, sec))
    L.append("/-- objects with static storage in WRITABLE sections (.data/.bss/common) of the library's object files -/")
    L.append("def mutableGlobals : List (String × String × String) := [%s]\n" % ", ".join('("%s", "%s", "%s")' % g for g in globs))
    lib = {os.path.basename(f)[:-2] for f in srcs}
    L.append("/-- undefined symbols of the library's object files (its external dependencies) -/")
    own = set()
    for f in os.listdir(objdir):
        for line in subprocess.run(["nm", "--defined-only", os.path.join(objdir, f)], stdout=subprocess.PIPE).stdout.decode().splitlines():
            parts = line.split()
            if len(parts) == 3 and parts[1] in "TtRrDdBb":
                own.add(parts[2])
    ext = sorted(u for u in undef if u not in own)
    L.append("def externals : List String := [%s]\n" % ", ".join('"%s"' % u for u in ext))
    L.append("end Eav.Gen")
    ch = write_if_changed(os.path.join(out, "Enums.lean"), "\n".join(L) + "\n")

    # ---------------- TLD table
    rows = ["(%s, %d, %d)" % (lean_bytes(r[0].encode("utf-8")), r[1], r[2]) for r in dump["tld_list"]]
    T = ["/-! GENERATED by tools/extract.py: `tld_list[]` as compiled from src/auto_tld.c — do not edit. -/",
         "namespace Eav.Gen\n", chunked("tldTable", "List Nat × Nat × Nat", rows), "end Eav.Gen\n"]
    write_if_changed(os.path.join(out, "TldTable.lean"), "\n".join(T))

    # ---------------- CSVs
    def read_csv(path):
        with open(os.path.join(repo, path), newline="", encoding="utf-8") as f:
            rws = list(csv.reader(f))
        if not rws or rws[0][:2] != ["Domain", "Type"]:
            raise TieError("%s: unexpected header %r" % (path, rws[:1]))
        return rws[1:]
    pun = read_csv("data/punycode.csv")
    raw = read_csv("data/raw.csv")
    prow = ["(%s, %s, %s)" % (lean_bytes(r[0].encode()), lean_bytes(r[1].encode()), lean_bytes(r[2].encode()[:16])) for r in pun]
    rrow = ["(%s, %s)" % (lean_bytes(r[0].encode()), lean_bytes(r[1].encode())) for r in raw]
    with open(os.path.join(repo, "data/tld-domains.txt"), "rb") as f:
        dom = f.read().split(b"\n")
    if dom and dom[-1] == b"":
        dom.pop()
    drow = [lean_bytes(d) for d in dom]
    C = ["/-! GENERATED by tools/extract.py from data/punycode.csv, data/raw.csv, data/tld-domains.txt — do not edit.",
         "Rows: (domain bytes, type bytes, first 16 bytes of the TLD-manager field). -/",
         "namespace Eav.Gen\n",
         chunked("csvPuny", "List Nat × List Nat × List Nat", prow),
         chunked("csvRaw", "List Nat × List Nat", rrow),
         chunked("tldDomainsTxt", "List Nat", drow),
         "end Eav.Gen\n"]
    write_if_changed(os.path.join(out, "Csv.lean"), "\n".join(C))
    print("extract: ok (%d enum names, %d table rows, %d csv rows)" % (len(names), len(rows), len(prow)))


if __name__ == "__main__":
    try:
        main()
    except TieError as e:
        print("EXTRACT-FAIL: " + str(e))
        sys.exit(3)
