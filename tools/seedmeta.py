#!/usr/bin/env python3
"""seedmeta.py <commit> <seed_results*.json ...>: write what each check reported for each seeded change into seeded/<id>/meta.json"""
import json, os, sys
HERE = os.path.dirname(os.path.abspath(__file__)); VERIF = os.path.dirname(HERE)
if sys.argv[1] == "--summary":
    import glob
    rows = []
    for d in sorted(glob.glob(os.path.join(VERIF, "seeded", "*"))):
        m = json.load(open(os.path.join(d, "meta.json")))
        db = m.get("detected_by", {})
        rows.append((m["id"], m.get("round", 1), any(v.get("exit") for v in db.values()), any(v.get("concrete_input") for v in db.values()),
                     ",".join(sorted(c for c, v in db.items() if v.get("exit"))), sorted({v.get("commit", "") for v in db.values()})))
    for r in rows:
        print("%-7s round %d  %-12s %-18s by %-10s at %s" % (r[0], r[1], "detected" if r[2] else "MISSED", "concrete input" if r[3] else ("no input" if r[2] else ""), r[4], ",".join(r[5])))
    print("%d changes, %d detected, %d with a concrete input" % (len(rows), sum(r[2] for r in rows), sum(r[3] for r in rows)))
    sys.exit(0)
commit = sys.argv[1]
res = {}
for f in sys.argv[2:]:
    res.update(json.load(open(f)))
n = 0
for key, r in sorted(res.items()):
    sid = os.path.basename(key)
    mp = os.path.join(VERIF, "seeded", sid, "meta.json")
    if not os.path.exists(mp) or "error" in r:
        print("skip", key, r.get("error", ""))
        continue
    meta = json.load(open(mp))
    meta["detected_by"] = {c: dict(exit=d["rc"], violation_lines=d.get("lines", []), summary=(d.get("summary") or [""])[0], commit=commit,
                                   concrete_input=any("no-failing-input-found" not in l for l in d.get("lines", []) if l.startswith("VIOLATION")))
                           for c, d in r.items()}
    meta["detected"] = any(d["rc"] != 0 for d in r.values())
    json.dump(meta, open(mp, "w"), indent=1, ensure_ascii=False)
    n += 1
print("updated", n, "meta files")
