#!/usr/bin/env python3
"""seedmeta.py <commit> <seed_results*.json ...>: write what each check reported for each seeded change into seeded/<id>/meta.json"""
import json, os, sys
HERE = os.path.dirname(os.path.abspath(__file__)); VERIF = os.path.dirname(HERE)
commit = sys.argv[1]
res = {}
for f in sys.argv[2:]:
    res.update(json.load(open(f)))
n = 0
for key, r in sorted(res.items()):
    sid = os.path.basename(key)
    mp = os.path.join(VERIF, "seeded", sid, "meta.json")
    if not os.path.exists(mp) or "error" in r:
        print("skip", key, r.get("error", ""))
        continue
    meta = json.load(open(mp))
    meta["detected_by"] = {c: dict(exit=d["rc"], violation_lines=d.get("lines", []), summary=(d.get("summary") or [""])[0], commit=commit,
                                   concrete_input=any("no-failing-input-found" not in l for l in d.get("lines", []) if l.startswith("VIOLATION")))
                           for c, d in r.items()}
    meta["detected"] = any(d["rc"] != 0 for d in r.values())
    json.dump(meta, open(mp, "w"), indent=1, ensure_ascii=False)
    n += 1
print("updated", n, "meta files")
