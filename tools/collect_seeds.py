#!/usr/bin/env python3
"""copy the confirmed seeds from the sub-agents' scratch worktrees into /verif/seeded/<prop>-<n>/"""
import glob, json, os, re, shutil, subprocess
OUT = "/verif/seeded"
os.makedirs(OUT, exist_ok=True)
for prop in ["C%02d" % i for i in range(1, 21)]:
    for n in (1, 2, 3):
        sd = "/tmp/mut_%s/_seed/%d" % (prop, n)
        if not os.path.isdir(sd):
            continue
        dst = os.path.join(OUT, "%s-%d" % (prop, n))
        os.makedirs(dst, exist_ok=True)
        for f in os.listdir(sd):
            p = os.path.join(sd, f)
            if os.path.isfile(p) and not f.startswith("_demo") and f not in ("demo",) and os.path.getsize(p) < 200000 and not os.access(p, os.X_OK) or f.endswith(".sh"):
                shutil.copy2(p, os.path.join(dst, f))
            elif os.path.isdir(p) and f.startswith("stub"):
                shutil.copytree(p, os.path.join(dst, f), dirs_exist_ok=True)
        # shared helpers some demos use
        for extra in ("drv.c", "cases.inc", "stub_idn", "stub_idnkit", "shim"):
            src = "/tmp/mut_%s/_seed/%s" % (prop, extra)
            if os.path.exists(src):
                if os.path.isdir(src): shutil.copytree(src, os.path.join(dst, extra), dirs_exist_ok=True)
                else: shutil.copy2(src, os.path.join(dst, extra))
        patch = open(os.path.join(sd, "patch.diff")).read()
        files = re.findall(r"^diff --git a/(\S+)", patch, flags=re.M)
        notes = open(os.path.join(sd, "notes.md")).read() if os.path.exists(os.path.join(sd, "notes.md")) else ""
        m = re.search(r"(?is)(what it needs[^\n]*\n|needs to manifest[^\n]*\n|## trigger[^\n]*\n|trigger[^\n]*:\s*)(.*?)(\n#|\n\n\n|\Z)", notes)
        needs = (m.group(2).strip()[:900] if m else "see notes.md")
        conf = {}
        cf = "/tmp/seed_confirm/%s_%d.json" % (prop, n)
        if os.path.exists(cf):
            try: conf = json.load(open(cf))
            except Exception: conf = {}
        if prop == "C07" and n == 3:
            conf = dict(applies=True, with_build=0, suite_rc=0, suite_fail_bins=[], with_demo_rc=1, without_demo_rc=0, confirmed=True,
                        note="confirmed by hand: suite run on a clean patched build first (exit 0, no FAIL), then demo.sh (rebuilds with LABELS_ALLOW_UNDERSCORE=ON): 1 with the patch, 0 without")
        meta = dict(id="%s-%d" % (prop, n), property=prop, files_touched=files,
                    title=(notes.strip().splitlines()[0].lstrip("# ").strip() if notes.strip() else ""),
                    needs_to_manifest=needs,
                    what_was_run=dict(
                        scratch_worktree="/tmp/mut_%s (git worktree of /repo at 73e524a, removed afterwards)" % prop,
                        steps=["git apply patch.diff", "make clean; make -j8", "make -k -j8 check VERBOSE=1  (exit 0, no ./t-*.bin: FAIL)",
                               "demo with the change (non-zero)", "git checkout -- .; rebuild; demo without the change (0)"],
                        applies=conf.get("applies"), build_rc=conf.get("with_build"), suite_rc=conf.get("suite_rc"),
                        suite_failed_binaries=conf.get("suite_fail_bins"), demo_rc_with_change=conf.get("with_demo_rc"),
                        demo_rc_without_change=conf.get("without_demo_rc"), confirmed=conf.get("confirmed"), note=conf.get("note")),
                    demo_output_with_change=(conf.get("with_demo_out") or "")[-400:],
                    detected_by={})
        old = os.path.join(dst, "meta.json")
        if os.path.exists(old):
            try: meta["detected_by"] = json.load(open(old)).get("detected_by", {})
            except Exception: pass
        json.dump(meta, open(old, "w"), indent=1, ensure_ascii=False)
print(len(os.listdir(OUT)), "seeds in", OUT)
